use crate::{ActorState, BAD_PROOF, Inv, Store, Vm, actor, fake_sign};
use anyhow::anyhow;
use cid::Cid;
use fil_actor_account::Actor as AccountActor;
use fil_actor_cron::Actor as CronActor;
use fil_actor_datacap::Actor as DataCapActor;
use fil_actor_eam::EamActor;
use fil_actor_ethaccount::EthAccountActor;
use fil_actor_evm::EvmContractActor;
use fil_actor_init::{Actor as InitActor, State as InitState};
use fil_actor_market::Actor as MarketActor;
use fil_actor_miner::Actor as MinerActor;
use fil_actor_multisig::Actor as MultisigActor;
use fil_actor_paych::Actor as PaychActor;
use fil_actor_power::Actor as PowerActor;
use fil_actor_reward::Actor as RewardActor;
use fil_actor_system::Actor as SystemActor;
use fil_actor_verifreg::Actor as VerifregActor;
use fil_actors_runtime::runtime::builtins::Type;
use fil_actors_runtime::runtime::{
    ActorCode, DomainSeparationTag, EMPTY_ARR_CID, MessageInfo, Policy, Primitives, Runtime,
    RuntimePolicy,
};
use fil_actors_runtime::test_utils::*;
use fil_actors_runtime::{
    ActorError, EAM_ACTOR_ADDR, INIT_ACTOR_ADDR, SYSTEM_ACTOR_ID, SendError, actor_error,
};
use fvm_ipld_encoding::CborStore;
use fvm_ipld_encoding::ipld_block::IpldBlock;
use fvm_shared::address::{Address, Payload};
use fvm_shared::chainid::ChainID;
use fvm_shared::clock::ChainEpoch;
use fvm_shared::consensus::{ConsensusFault, ConsensusFaultType};
use fvm_shared::crypto::hash::SupportedHashes;
use fvm_shared::crypto::signature::{
    SECP_PUB_LEN, SECP_SIG_LEN, SECP_SIG_MESSAGE_HASH_SIZE, Signature,
};
use fvm_shared::econ::TokenAmount;
use fvm_shared::error::{ErrorNumber, ExitCode};
use fvm_shared::event::ActorEvent;
use fvm_shared::piece::PieceInfo;
use fvm_shared::randomness::RANDOMNESS_LENGTH;
use fvm_shared::sector::{
    AggregateSealVerifyProofAndInfos, RegisteredSealProof, ReplicaUpdateInfo, SealVerifyInfo,
    WindowPoStVerifyInfo,
};
use fvm_shared::sys::SendFlags;
use fvm_shared::version::NetworkVersion;
use fvm_shared::{ActorID, IPLD_RAW, METHOD_CONSTRUCTOR, METHOD_SEND, MethodNum, Response};
use multihash_codetable::Code;
use num_traits::Zero;
use serde::Serialize;
use serde::de::DeserializeOwned;
use std::cell::{Cell, RefCell};
use std::panic::{AssertUnwindSafe, catch_unwind};
use std::sync::Once;

pub const MAX_CALL_DEPTH: u32 = 1024;

thread_local! {
    static IN_ACTOR: Cell<u32> = const { Cell::new(0) };
    static LAST_PANIC: RefCell<String> = const { RefCell::new(String::new()) };
}
static HOOK: Once = Once::new();

/// Install a panic hook that stays silent for panics raised inside actor code (they are
/// captured and reported in the trace) and defers to the default hook otherwise.
pub fn install_panic_hook() {
    HOOK.call_once(|| {
        let default = std::panic::take_hook();
        std::panic::set_hook(Box::new(move |info| {
            if IN_ACTOR.with(|c| c.get()) > 0 {
                LAST_PANIC.with(|p| *p.borrow_mut() = info.to_string());
            } else {
                default(info);
            }
        }));
    });
}

#[derive(Clone)]
pub struct TopCtx {
    pub originator_stable_addr: Address,
    pub originator_id: ActorID,
    pub originator_call_seq: u64,
}

#[derive(Clone, Debug)]
pub struct InternalMessage {
    pub from: ActorID,
    pub to: Address,
    pub value: TokenAmount,
    pub method: MethodNum,
    pub params: Option<IpldBlock>,
}

pub struct InvocationCtx<'v> {
    pub v: &'v Vm,
    pub top: TopCtx,
    pub msg: InternalMessage,
    to_id: Cell<Option<ActorID>>,
    allow_side_effects: Cell<bool>,
    caller_validated: Cell<bool>,
    read_only: bool,
    panicked: Cell<bool>,
    subinvocations: RefCell<Vec<Inv>>,
    events: RefCell<Vec<ActorEvent>>,
}

impl MessageInfo for InvocationCtx<'_> {
    fn nonce(&self) -> u64 {
        self.top.originator_call_seq
    }
    fn caller(&self) -> Address {
        Address::new_id(self.msg.from)
    }
    fn origin(&self) -> Address {
        Address::new_id(self.top.originator_id)
    }
    fn receiver(&self) -> Address {
        Address::new_id(self.to_id.get().expect("receiver resolved"))
    }
    fn value_received(&self) -> TokenAmount {
        self.msg.value.clone()
    }
    fn gas_premium(&self) -> TokenAmount {
        TokenAmount::zero()
    }
}

impl<'v> InvocationCtx<'v> {
    pub fn new(v: &'v Vm, top: TopCtx, msg: InternalMessage, read_only: bool) -> Self {
        InvocationCtx {
            v,
            top,
            msg,
            to_id: Cell::new(None),
            allow_side_effects: Cell::new(true),
            caller_validated: Cell::new(false),
            read_only,
            panicked: Cell::new(false),
            subinvocations: RefCell::new(vec![]),
            events: RefCell::new(vec![]),
        }
    }

    fn me(&self) -> ActorID {
        self.to_id.get().expect("receiver resolved")
    }

    /// Resolve the target, auto-creating an account (f1/f3) or EAM placeholder (f4) like the FVM.
    fn resolve_target(&self, target: &Address) -> Result<(ActorState, ActorID), ErrorNumber> {
        if let Some(id) = self.v.resolve(target)
            && let Some(act) = self.v.actor(id)
        {
            return Ok((act, id));
        }
        let is_account = match target.payload() {
            Payload::Secp256k1(_) | Payload::BLS(_) => true,
            Payload::Delegated(da) if da.namespace() == EAM_ACTOR_ADDR.id().unwrap() => false,
            _ => return Err(ErrorNumber::NotFound),
        };
        if self.read_only {
            return Err(ErrorNumber::ReadOnly);
        }
        let init_id = INIT_ACTOR_ADDR.id().unwrap();
        let mut st: InitState = self.v.state_of(init_id).unwrap();
        let (target_id, existing) = st.map_addresses_to_id(&self.v.store, target, None).unwrap();
        assert!(!existing, "should never have existing actor when no f4 address is specified");
        let mut init_actor = self.v.actor(init_id).unwrap();
        init_actor.state = self.v.store.put_cbor(&st, Code::Blake2b256).unwrap();
        self.v.set_actor(init_id, Some(init_actor));

        if is_account {
            self.v.set_actor(
                target_id,
                Some(actor(*ACCOUNT_ACTOR_CODE_ID, EMPTY_ARR_CID, TokenAmount::zero(), None)),
            );
            let ctor = InternalMessage {
                from: SYSTEM_ACTOR_ID,
                to: Address::new_id(target_id),
                value: TokenAmount::zero(),
                method: METHOD_CONSTRUCTOR,
                params: IpldBlock::serialize_cbor(target).unwrap(),
            };
            let mut ctx = InvocationCtx::new(self.v, self.top.clone(), ctor, false);
            let res = ctx.invoke();
            let inv = ctx.gather_trace(res, None, false);
            assert!(inv.code.is_success(), "account constructor failed: {}", inv.tree());
            self.subinvocations.borrow_mut().push(inv);
        } else {
            self.v.set_actor(
                target_id,
                Some(actor(
                    *PLACEHOLDER_ACTOR_CODE_ID,
                    EMPTY_ARR_CID,
                    TokenAmount::zero(),
                    Some(*target),
                )),
            );
        }
        Ok((self.v.actor(target_id).unwrap(), target_id))
    }

    pub fn gather_trace(
        &mut self,
        res: Result<Option<IpldBlock>, ActorError>,
        send_index: Option<usize>,
        injected: bool,
    ) -> Inv {
        let (ret, code, msg) = match res {
            Ok(rb) => (rb, ExitCode::OK, String::new()),
            Err(mut ae) => (ae.take_data(), ae.exit_code(), ae.msg().to_string()),
        };
        let to = match self.to_id.get() {
            Some(id) => Address::new_id(id),
            None => self.msg.to,
        };
        Inv {
            from: self.msg.from,
            to,
            method: self.msg.method,
            value: self.msg.value.clone(),
            params: self.msg.params.clone(),
            code,
            ret,
            subs: self.subinvocations.take(),
            events: self.events.take(),
            read_only: self.read_only,
            injected,
            panicked: self.panicked.get(),
            send_index,
            msg,
        }
    }

    /// Transfer value, dispatch to the real actor code, roll back on abort.
    /// `Err(ErrorNumber)` results of the send syscall are folded into `invoke_send`.
    pub fn invoke(&mut self) -> Result<Option<IpldBlock>, ActorError> {
        match self.invoke_send() {
            Ok(r) => r,
            Err(n) => Err(ActorError::unchecked(
                match n {
                    ErrorNumber::InsufficientFunds => ExitCode::SYS_INSUFFICIENT_FUNDS,
                    ErrorNumber::NotFound => ExitCode::SYS_INVALID_RECEIVER,
                    ErrorNumber::ReadOnly => ExitCode::USR_READ_ONLY,
                    _ => ExitCode::SYS_ASSERTION_FAILED,
                },
                format!("send syscall error {n}"),
            )),
        }
    }

    /// Outer `Err` = the send syscall itself failed (callee never ran);
    /// inner result = the callee's exit.
    pub fn invoke_send(
        &mut self,
    ) -> Result<Result<Option<IpldBlock>, ActorError>, ErrorNumber> {
        let mark = self.v.journal_mark();
        let from_id = self.msg.from;
        let mut from_actor = self.v.actor(from_id).expect("sender exists");
        if !self.msg.value.is_zero() {
            if self.msg.value.is_negative() {
                return Err(ErrorNumber::IllegalArgument);
            }
            if from_actor.balance < self.msg.value {
                return Err(ErrorNumber::InsufficientFunds);
            }
            if self.read_only {
                return Err(ErrorNumber::ReadOnly);
            }
        }
        let (_, to_id) = match self.resolve_target(&self.msg.to) {
            Ok(x) => x,
            Err(n) => {
                self.v.journal_unwind(mark);
                return Err(n);
            }
        };
        self.to_id.set(Some(to_id));
        if !self.msg.value.is_zero() {
            from_actor.balance -= &self.msg.value;
            self.v.set_actor(from_id, Some(from_actor));
            let mut to_actor = self.v.actor(to_id).unwrap();
            to_actor.balance += &self.msg.value;
            self.v.set_actor(to_id, Some(to_actor));
        }
        if self.msg.method == METHOD_SEND {
            return Ok(Ok(None));
        }
        self.msg.to = Address::new_id(to_id);
        let to_actor = self.v.actor(to_id).unwrap();
        let params = self.msg.params.clone();
        let method = self.msg.method;
        let Some(ty) = ACTOR_TYPES.get(&to_actor.code) else {
            // foreign (non-built-in) actor: accepts every call, does nothing.
            return Ok(Ok(None));
        };
        install_panic_hook();
        IN_ACTOR.with(|c| c.set(c.get() + 1));
        let caught = catch_unwind(AssertUnwindSafe(|| match ty {
            Type::Account => AccountActor::invoke_method(self, method, params),
            Type::Cron => CronActor::invoke_method(self, method, params),
            Type::Init => InitActor::invoke_method(self, method, params),
            Type::Market => MarketActor::invoke_method(self, method, params),
            Type::Miner => MinerActor::invoke_method(self, method, params),
            Type::Multisig => MultisigActor::invoke_method(self, method, params),
            Type::System => SystemActor::invoke_method(self, method, params),
            Type::Reward => RewardActor::invoke_method(self, method, params),
            Type::Power => PowerActor::invoke_method(self, method, params),
            Type::PaymentChannel => PaychActor::invoke_method(self, method, params),
            Type::VerifiedRegistry => VerifregActor::invoke_method(self, method, params),
            Type::DataCap => DataCapActor::invoke_method(self, method, params),
            Type::Placeholder => {
                Err(ActorError::unhandled_message("placeholder actors only handle method 0".into()))
            }
            Type::EVM => EvmContractActor::invoke_method(self, method, params),
            Type::EAM => EamActor::invoke_method(self, method, params),
            Type::EthAccount => EthAccountActor::invoke_method(self, method, params),
        }));
        IN_ACTOR.with(|c| c.set(c.get() - 1));
        let mut res = match caught {
            Ok(r) => r,
            Err(_) => {
                self.panicked.set(true);
                self.allow_side_effects.set(true);
                let m = LAST_PANIC.with(|p| p.borrow().clone());
                Err(ActorError::unchecked(ExitCode::USR_ASSERTION_FAILED, format!("panic: {m}")))
            }
        };
        if res.is_ok() && !self.caller_validated.get() {
            res = Err(actor_error!(assertion_failed, "failed to validate caller"));
        }
        if res.is_err() {
            self.v.journal_unwind(mark);
        }
        Ok(res)
    }

    fn double_validated(&self) -> Result<(), ActorError> {
        if self.caller_validated.get() {
            return Err(ActorError::unchecked(
                ExitCode::USR_ASSERTION_FAILED,
                "caller double validated".to_string(),
            ));
        }
        Ok(())
    }
}

impl Runtime for InvocationCtx<'_> {
    type Blockstore = Store;

    fn create_actor(
        &self,
        code_id: Cid,
        actor_id: ActorID,
        predictable_address: Option<Address>,
    ) -> Result<(), ActorError> {
        if !self.allow_side_effects.get() {
            return Err(
                actor_error!(assertion_failed; "create_actor is not allowed during transaction"),
            );
        }
        if NON_SINGLETON_CODES.get(&code_id).is_none() {
            return Err(ActorError::illegal_argument(
                "create_actor called with singleton or unknown code cid".to_string(),
            ));
        }
        if self.read_only {
            return Err(ActorError::unchecked(
                ExitCode::USR_READ_ONLY,
                "cannot create actor in read-only mode".into(),
            ));
        }
        let a = match self.v.actor(actor_id) {
            Some(mut act) if act.code == *PLACEHOLDER_ACTOR_CODE_ID => {
                act.code = code_id;
                act
            }
            None => actor(code_id, EMPTY_ARR_CID, TokenAmount::zero(), predictable_address),
            _ => {
                return Err(actor_error!(forbidden;
                    "attempt to create new actor at existing address {}", actor_id));
            }
        };
        self.v.new_actor_count.set(self.v.new_actor_count.get() + 1);
        self.v.set_actor(actor_id, Some(a));
        Ok(())
    }

    fn store(&self) -> &Store {
        &self.v.store
    }

    fn network_version(&self) -> NetworkVersion {
        NetworkVersion::V27
    }

    fn message(&self) -> &dyn MessageInfo {
        self
    }

    fn curr_epoch(&self) -> ChainEpoch {
        self.v.epoch()
    }

    fn chain_id(&self) -> ChainID {
        ChainID::from(0)
    }

    fn validate_immediate_caller_accept_any(&self) -> Result<(), ActorError> {
        self.double_validated()?;
        self.caller_validated.set(true);
        Ok(())
    }

    fn validate_immediate_caller_namespace<I>(&self, namespaces: I) -> Result<(), ActorError>
    where
        I: IntoIterator<Item = u64>,
    {
        self.double_validated()?;
        self.caller_validated.set(true);
        let managers: Vec<_> = namespaces.into_iter().collect();
        if let Some(delegated) = self.lookup_delegated_address(self.msg.from) {
            for id in managers {
                if matches!(delegated.payload(), Payload::Delegated(d) if d.namespace() == id) {
                    return Ok(());
                }
            }
        }
        Err(ActorError::unchecked(
            ExitCode::USR_FORBIDDEN,
            "immediate caller actor namespace forbidden".to_string(),
        ))
    }

    fn validate_immediate_caller_is<'a, I>(&self, addresses: I) -> Result<(), ActorError>
    where
        I: IntoIterator<Item = &'a Address>,
    {
        self.double_validated()?;
        self.caller_validated.set(true);
        let me = Address::new_id(self.msg.from);
        if addresses.into_iter().any(|a| *a == me) {
            return Ok(());
        }
        Err(ActorError::unchecked(
            ExitCode::USR_FORBIDDEN,
            "immediate caller address forbidden".to_string(),
        ))
    }

    fn validate_immediate_caller_type<'a, I>(&self, types: I) -> Result<(), ActorError>
    where
        I: IntoIterator<Item = &'a Type>,
    {
        self.double_validated()?;
        self.caller_validated.set(true);
        let ty = self.v.actor(self.msg.from).and_then(|a| ACTOR_TYPES.get(&a.code).cloned());
        if let Some(ty) = ty
            && types.into_iter().any(|t| *t == ty)
        {
            return Ok(());
        }
        Err(ActorError::unchecked(
            ExitCode::USR_FORBIDDEN,
            "immediate caller actor type forbidden".to_string(),
        ))
    }

    fn current_balance(&self) -> TokenAmount {
        self.v.actor(self.me()).unwrap().balance
    }

    fn resolve_address(&self, addr: &Address) -> Option<ActorID> {
        self.v.resolve(addr)
    }

    fn get_actor_code_cid(&self, id: &ActorID) -> Option<Cid> {
        self.v.actor(*id).map(|a| a.code)
    }

    fn lookup_delegated_address(&self, id: ActorID) -> Option<Address> {
        self.v.actor(id).and_then(|a| a.delegated_address)
    }

    fn send(
        &self,
        to: &Address,
        method: MethodNum,
        params: Option<IpldBlock>,
        value: TokenAmount,
        _gas_limit: Option<u64>,
        mut send_flags: SendFlags,
    ) -> Result<Response, SendError> {
        if self.read_only {
            send_flags.set(SendFlags::READ_ONLY, true)
        }
        if !self.allow_side_effects.get() {
            return Err(SendError(ErrorNumber::IllegalOperation));
        }
        let idx = self.v.send_counter.get();
        self.v.send_counter.set(idx + 1);

        let msg = InternalMessage { from: self.me(), to: *to, value, method, params };
        let mut ctx = InvocationCtx::new(self.v, self.top.clone(), msg, send_flags.read_only());

        if self.v.fault_plan.borrow().contains(&idx) {
            // injected failure: the callee does not run, nothing moves
            ctx.to_id.set(self.v.resolve(to));
            let code = self.v.fault_exit.get();
            let inv = ctx.gather_trace(
                Err(ActorError::unchecked(code, "injected fault".into())),
                Some(idx),
                true,
            );
            self.subinvocations.borrow_mut().push(inv);
            return Ok(Response { exit_code: code, return_data: None });
        }

        let d = self.v.depth.get();
        if d >= MAX_CALL_DEPTH {
            return Err(SendError(ErrorNumber::LimitExceeded));
        }
        self.v.depth.set(d + 1);
        let res = ctx.invoke_send();
        self.v.depth.set(d);
        match res {
            Err(n) => {
                let inv = ctx.gather_trace(
                    Err(ActorError::unchecked(
                        ExitCode::SYS_ASSERTION_FAILED,
                        format!("send syscall error {n}"),
                    )),
                    Some(idx),
                    false,
                );
                self.subinvocations.borrow_mut().push(inv);
                Err(SendError(n))
            }
            Ok(res) => {
                let inv = ctx.gather_trace(res.clone(), Some(idx), false);
                self.subinvocations.borrow_mut().push(inv);
                Ok(Response {
                    exit_code: res.as_ref().err().map(|e| e.exit_code()).unwrap_or(ExitCode::OK),
                    return_data: res.unwrap_or_else(|mut e| e.take_data()),
                })
            }
        }
    }

    fn get_randomness_from_tickets(
        &self,
        tag: DomainSeparationTag,
        epoch: ChainEpoch,
        entropy: &[u8],
    ) -> Result<[u8; RANDOMNESS_LENGTH], ActorError> {
        Ok(fake_randomness(1, tag as i64, epoch, entropy))
    }

    fn get_randomness_from_beacon(
        &self,
        tag: DomainSeparationTag,
        epoch: ChainEpoch,
        entropy: &[u8],
    ) -> Result<[u8; RANDOMNESS_LENGTH], ActorError> {
        Ok(fake_randomness(2, tag as i64, epoch, entropy))
    }

    fn get_beacon_randomness(
        &self,
        epoch: ChainEpoch,
    ) -> Result<[u8; RANDOMNESS_LENGTH], ActorError> {
        Ok(fake_randomness(3, 0, epoch, &[]))
    }

    fn get_state_root(&self) -> Result<Cid, ActorError> {
        Ok(self.v.actor(self.me()).unwrap().state)
    }

    fn set_state_root(&self, root: &Cid) -> Result<(), ActorError> {
        if self.read_only {
            return Err(ActorError::unchecked(
                ExitCode::USR_READ_ONLY,
                "actor is read-only".to_string(),
            ));
        }
        match self.v.actor(self.me()) {
            None => Err(ActorError::unchecked(
                ExitCode::SYS_ASSERTION_FAILED,
                "actor does not exist".to_string(),
            )),
            Some(mut act) => {
                act.state = *root;
                self.v.set_actor(self.me(), Some(act));
                Ok(())
            }
        }
    }

    fn transaction<S, RT, F>(&self, f: F) -> Result<RT, ActorError>
    where
        S: Serialize + DeserializeOwned,
        F: FnOnce(&mut S, &Self) -> Result<RT, ActorError>,
    {
        if !self.allow_side_effects.get() {
            return Err(actor_error!(assertion_failed; "nested transaction"));
        }
        let mut st = self.state::<S>()?;
        self.allow_side_effects.set(false);
        let result = f(&mut st, self);
        self.allow_side_effects.set(true);
        let ret = result?;
        if self.read_only {
            return Err(ActorError::unchecked(
                ExitCode::USR_READ_ONLY,
                "actor is read-only".to_string(),
            ));
        }
        let mut act = self.v.actor(self.me()).unwrap();
        act.state = self.v.store.put_cbor(&st, Code::Blake2b256).unwrap();
        self.v.set_actor(self.me(), Some(act));
        Ok(ret)
    }

    fn new_actor_address(&self) -> Result<Address, ActorError> {
        let mut b = self.top.originator_stable_addr.to_bytes();
        b.extend_from_slice(&self.top.originator_call_seq.to_be_bytes());
        b.extend_from_slice(&self.v.new_actor_count.get().to_be_bytes());
        Ok(Address::new_actor(&b))
    }

    fn delete_actor(&self) -> Result<(), ActorError> {
        if !self.allow_side_effects.get() {
            return Err(
                actor_error!(assertion_failed; "delete_actor is not allowed during transaction"),
            );
        }
        if self.read_only {
            return Err(ActorError::unchecked(ExitCode::USR_READ_ONLY, "read-only".into()));
        }
        let me = self.me();
        let a = self.v.actor(me).unwrap();
        if !a.balance.is_zero() {
            return Err(actor_error!(illegal_state; "self-destruct with non-zero balance"));
        }
        self.v.set_actor(me, None);
        Ok(())
    }

    fn resolve_builtin_actor_type(&self, code_id: &Cid) -> Option<Type> {
        ACTOR_TYPES.get(code_id).cloned()
    }

    fn get_code_cid_for_type(&self, typ: Type) -> Cid {
        ACTOR_CODES.get(&typ).cloned().unwrap()
    }

    fn total_fil_circ_supply(&self) -> TokenAmount {
        self.v.circ_supply.borrow().clone()
    }

    fn charge_gas(&self, _name: &'static str, _compute: i64) {}

    fn base_fee(&self) -> TokenAmount {
        TokenAmount::zero()
    }

    fn actor_balance(&self, id: ActorID) -> Option<TokenAmount> {
        self.v.actor(id).map(|act| act.balance)
    }

    fn gas_available(&self) -> u64 {
        u32::MAX.into()
    }

    fn tipset_timestamp(&self) -> u64 {
        0
    }

    fn tipset_cid(&self, _epoch: i64) -> Result<Cid, ActorError> {
        Ok(Cid::new_v1(IPLD_RAW, Multihash::wrap(0, b"faketipset").unwrap()))
    }

    fn emit_event(&self, event: &ActorEvent) -> Result<(), ActorError> {
        if self.read_only {
            return Err(ActorError::unchecked(ExitCode::USR_READ_ONLY, "read-only".into()));
        }
        self.events.borrow_mut().push(event.clone());
        Ok(())
    }

    fn read_only(&self) -> bool {
        self.read_only
    }
}

pub fn fake_randomness(kind: u8, tag: i64, epoch: ChainEpoch, entropy: &[u8]) -> [u8; 32] {
    let mut st = blake2b_simd::Params::new().hash_length(32).to_state();
    st.update(&[kind]);
    st.update(&tag.to_be_bytes());
    st.update(&epoch.to_be_bytes());
    st.update(entropy);
    st.finalize().as_bytes().try_into().unwrap()
}

impl Primitives for InvocationCtx<'_> {
    fn verify_signature(
        &self,
        signature: &Signature,
        signer: &Address,
        plaintext: &[u8],
    ) -> Result<(), anyhow::Error> {
        if signature.bytes == fake_sign(signer, plaintext) {
            Ok(())
        } else {
            Err(anyhow!("invalid signature for signer {signer}"))
        }
    }

    fn hash_blake2b(&self, data: &[u8]) -> [u8; 32] {
        self.v.prims.hash_blake2b(data)
    }

    fn compute_unsealed_sector_cid(
        &self,
        proof_type: RegisteredSealProof,
        pieces: &[PieceInfo],
    ) -> Result<Cid, anyhow::Error> {
        self.v.prims.compute_unsealed_sector_cid(proof_type, pieces)
    }

    fn hash(&self, hasher: SupportedHashes, data: &[u8]) -> Vec<u8> {
        self.v.prims.hash(hasher, data)
    }

    fn hash_64(&self, hasher: SupportedHashes, data: &[u8]) -> ([u8; 64], usize) {
        // Not `prims.hash_64`: FakePrimitives::hash_64 (/repo/runtime/src/test_utils.rs) returns
        // the multihash *code* where the digest length belongs (27 for keccak-256), which
        // truncates every EVM KECCAK256 result to 27 bytes.
        let d = self.v.prims.hash(hasher, data);
        let mut buf = [0u8; 64];
        buf[..d.len()].copy_from_slice(&d);
        (buf, d.len())
    }

    fn recover_secp_public_key(
        &self,
        hash: &[u8; SECP_SIG_MESSAGE_HASH_SIZE],
        signature: &[u8; SECP_SIG_LEN],
    ) -> Result<[u8; SECP_PUB_LEN], anyhow::Error> {
        self.v.prims.recover_secp_public_key(hash, signature)
    }

    fn verify_post(&self, verify_info: &WindowPoStVerifyInfo) -> Result<(), anyhow::Error> {
        for proof in &verify_info.proofs {
            if proof.proof_bytes == BAD_PROOF {
                return Err(anyhow!("invalid proof"));
            }
        }
        Ok(())
    }

    fn verify_consensus_fault(
        &self,
        h1: &[u8],
        _h2: &[u8],
        _extra: &[u8],
    ) -> Result<Option<ConsensusFault>, anyhow::Error> {
        if h1.len() == 2 + 8 + 8 + 1 && &h1[..2] == b"CF" {
            let target = u64::from_be_bytes(h1[2..10].try_into().unwrap());
            let epoch = i64::from_be_bytes(h1[10..18].try_into().unwrap());
            let fault_type = match h1[18] {
                1 => ConsensusFaultType::DoubleForkMining,
                2 => ConsensusFaultType::ParentGrinding,
                _ => ConsensusFaultType::TimeOffsetMining,
            };
            return Ok(Some(ConsensusFault { target: Address::new_id(target), epoch, fault_type }));
        }
        Ok(None)
    }

    fn batch_verify_seals(&self, batch: &[SealVerifyInfo]) -> anyhow::Result<Vec<bool>> {
        Ok(batch.iter().map(|i| i.proof != BAD_PROOF).collect())
    }

    fn verify_aggregate_seals(
        &self,
        aggregate: &AggregateSealVerifyProofAndInfos,
    ) -> Result<(), anyhow::Error> {
        if aggregate.proof == BAD_PROOF { Err(anyhow!("invalid aggregate")) } else { Ok(()) }
    }

    fn verify_replica_update(&self, replica: &ReplicaUpdateInfo) -> Result<(), anyhow::Error> {
        if replica.proof == BAD_PROOF { Err(anyhow!("invalid replica proof")) } else { Ok(()) }
    }
}

impl RuntimePolicy for InvocationCtx<'_> {
    fn policy(&self) -> &Policy {
        &self.v.policy
    }
}
