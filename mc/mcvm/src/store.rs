//! Shared, append-only, content-addressed block store usable from many worker threads.
use cid::Cid;
use fvm_ipld_blockstore::Blockstore;
use std::collections::HashMap;
use std::sync::atomic::{AtomicUsize, Ordering};
use std::sync::{Arc, RwLock};

const SHARDS: usize = 64;

pub struct Inner {
    shards: Vec<RwLock<HashMap<Cid, Arc<[u8]>>>>,
    bytes: AtomicUsize,
}

#[derive(Clone)]
pub struct Store(pub Arc<Inner>);

impl Default for Store {
    fn default() -> Self {
        Self::new()
    }
}

impl Store {
    pub fn new() -> Self {
        Store(Arc::new(Inner {
            shards: (0..SHARDS).map(|_| RwLock::new(HashMap::new())).collect(),
            bytes: AtomicUsize::new(0),
        }))
    }
    fn shard(&self, k: &Cid) -> &RwLock<HashMap<Cid, Arc<[u8]>>> {
        let d = k.hash().digest();
        let i = if d.is_empty() { 0 } else { d[d.len() - 1] as usize % SHARDS };
        &self.0.shards[i]
    }
    /// Total payload bytes held (for memory caps in the explorer).
    pub fn bytes(&self) -> usize {
        self.0.bytes.load(Ordering::Relaxed)
    }
    pub fn blocks(&self) -> usize {
        self.0.shards.iter().map(|s| s.read().unwrap().len()).sum()
    }
}

impl Blockstore for Store {
    fn get(&self, k: &Cid) -> anyhow::Result<Option<Vec<u8>>> {
        Ok(self.shard(k).read().unwrap().get(k).map(|b| b.to_vec()))
    }
    fn put_keyed(&self, k: &Cid, block: &[u8]) -> anyhow::Result<()> {
        let sh = self.shard(k);
        if sh.read().unwrap().contains_key(k) {
            return Ok(());
        }
        let mut w = sh.write().unwrap();
        if !w.contains_key(k) {
            self.0.bytes.fetch_add(block.len() + 64, Ordering::Relaxed);
            w.insert(*k, Arc::from(block));
        }
        Ok(())
    }
}
