//! Content-addressed block store shared by many worker threads.
//!
//! Two layers: a *shared* sharded map that is only written between exploration levels
//! (`commit` / `absorb`, single-threaded), and a per-handle *local overlay* receiving all
//! writes. Workers `fork()` the store, so that during a level the shared layer is read-only
//! and lock-free in practice (readers only).
use cid::Cid;
use fvm_ipld_blockstore::Blockstore;
use std::collections::HashMap;
use std::sync::atomic::{AtomicUsize, Ordering};
use std::sync::{Arc, Mutex, RwLock};

const SHARDS: usize = 64;
pub type Blocks = HashMap<Cid, Arc<[u8]>>;

pub struct Shared {
    shards: Vec<RwLock<Blocks>>,
    bytes: AtomicUsize,
}

#[derive(Clone)]
pub struct Store {
    shared: Arc<Shared>,
    local: Arc<Mutex<Blocks>>,
    /// blocks written since the last `keep()` / `discard()` (one transition's garbage or gain)
    pending: Arc<Mutex<Blocks>>,
}

impl Default for Store {
    fn default() -> Self {
        Self::new()
    }
}

impl Store {
    pub fn new() -> Self {
        Store {
            shared: Arc::new(Shared {
                shards: (0..SHARDS).map(|_| RwLock::new(HashMap::new())).collect(),
                bytes: AtomicUsize::new(0),
            }),
            local: Arc::new(Mutex::new(HashMap::new())),
            pending: Arc::new(Mutex::new(HashMap::new())),
        }
    }
    /// A handle on the same shared layer with a fresh, private overlay.
    pub fn fork(&self) -> Store {
        Store {
            shared: self.shared.clone(),
            local: Arc::new(Mutex::new(HashMap::new())),
            pending: Arc::new(Mutex::new(HashMap::new())),
        }
    }
    fn shard(&self, k: &Cid) -> &RwLock<Blocks> {
        let d = k.hash().digest();
        let i = if d.is_empty() { 0 } else { d[d.len() - 1] as usize % SHARDS };
        &self.shared.shards[i]
    }
    /// Move this handle's overlay out (to be `absorb`ed by the owner of the shared layer).
    pub fn take_local(&self) -> Blocks {
        self.keep();
        std::mem::take(&mut *self.local.lock().unwrap())
    }
    /// Keep the blocks written since the last keep/discard (the transition led to a new state).
    pub fn keep(&self) {
        let mut p = self.pending.lock().unwrap();
        if p.is_empty() {
            return;
        }
        let mut l = self.local.lock().unwrap();
        for (k, v) in p.drain() {
            l.insert(k, v);
        }
    }
    /// Drop the blocks written since the last keep/discard (rejected or duplicate transition).
    pub fn discard(&self) {
        self.pending.lock().unwrap().clear();
    }
    /// Publish blocks into the shared layer.
    pub fn absorb(&self, blocks: Blocks) {
        for (k, v) in blocks {
            let mut w = self.shard(&k).write().unwrap();
            if !w.contains_key(&k) {
                self.shared.bytes.fetch_add(v.len() + 64, Ordering::Relaxed);
                w.insert(k, v);
            }
        }
    }
    /// Publish this handle's own overlay.
    pub fn commit(&self) {
        let l = self.take_local();
        self.absorb(l);
    }
    /// Total payload bytes held in the shared layer (for memory caps in the explorer).
    pub fn bytes(&self) -> usize {
        self.shared.bytes.load(Ordering::Relaxed)
    }
    pub fn blocks(&self) -> usize {
        self.shared.shards.iter().map(|s| s.read().unwrap().len()).sum()
    }
}

impl Blockstore for Store {
    fn get(&self, k: &Cid) -> anyhow::Result<Option<Vec<u8>>> {
        if let Some(b) = self.pending.lock().unwrap().get(k) {
            return Ok(Some(b.to_vec()));
        }
        if let Some(b) = self.local.lock().unwrap().get(k) {
            return Ok(Some(b.to_vec()));
        }
        Ok(self.shard(k).read().unwrap().get(k).map(|b| b.to_vec()))
    }
    fn put_keyed(&self, k: &Cid, block: &[u8]) -> anyhow::Result<()> {
        let mut p = self.pending.lock().unwrap();
        if p.contains_key(k) || self.local.lock().unwrap().contains_key(k) {
            return Ok(());
        }
        if self.shard(k).read().unwrap().contains_key(k) {
            return Ok(());
        }
        p.insert(*k, Arc::from(block));
        Ok(())
    }
}
