#!/usr/bin/env python3
"""Regenerates /verif/MANIFEST.json from the table below (single source of truth)."""
import json, os
V = os.path.dirname(os.path.dirname(os.path.abspath(__file__)))
props = [json.loads(l) for l in open(os.path.join(V, "properties.jsonl"))]
ids = [p["id"] for p in props]

# id -> (category, technique, level text, level note, design ref)
CHECKS = {
 "C01": ("model_checking",
         "explicit-state BFS over five scenarios of real actor code with a conservation/solvency oracle after every transition, incl. injected failures of nested sends",
         "After every transition of (1) an economy scenario (plain sends of 4 amounts to accounts, fresh key/f4 addresses, a foreign namespace, miner, multisig, burnt funds, reward actor; miner creation with short/exact/excess deposit; block rewards with/without penalty and gas reward to a miner and to a non-miner; withdrawals; ticks; every nested value transfer and the ApplyRewards call failed by injection), (2) the payment-channel scenario, (3) the multisig scenario, (4) the market escrow scenario and (5) the miner-life walk of a poor miner with penalties, disputes and failing reporter transfers: the sum of all actor balances equals the genesis total, burnt funds never decrease and nothing is sent from the burnt-funds account, the market holds at least the sum of escrow and no party's locked amount exceeds its escrow, every miner holds at least deposits + vesting + pledge, every payment channel holds at least what it owes, and the reward actor pays at most its balance and books exactly the block reward.",
         "mcvm stands in for the FVM (its own transfer/rollback semantics are part of the trusted base); EVM value flows are covered by C19; amounts from small alphabets.",
         "DESIGN.md §3 C01"),
 "C02": ("model_checking",
         "explicit-state BFS (deviation-bounded) over the real miner+power actors under the SMALL policy with a sector-status model in lock-step",
         "From several base states (sectors in one or two deadlines, fresh or aged) the default schedule 'prove every partition when its window opens, real cron every epoch' is walked to the horizon and every placement of up to k deviations (skip/late/bad/partial PoSt, fault and recovery declarations, terminations, disputes, compaction, new on-boarding, reused sector numbers) at every epoch offset is explored; after every message and tick the credited power must equal the sum over sectors that an independent sector-status model says are proven, healthy and unexpired, the model's statuses must equal the partition bit-fields, expirations are adopted only when the protocol's rules allow/require them, and the network totals must equal the claim sums under the consensus-minimum rule.",
         "SMALL policy (24-epoch proving period, 2 KiB sectors, partitions of 2): says nothing about mainnet-only constants; mcvm stands in for the FVM; fake proofs; acceptance of individual messages is adopted, their effects are not.",
         "DESIGN.md §3 C02"),
 "C03": ("model_checking",
         "explicit-state BFS (deviation-bounded) over the real miner+power actors with recomputed collateral ledgers",
         "Same walk as C02; after every message and tick each miner's initial-pledge total is recomputed from its live and awaiting-termination sectors, the pre-commit deposit total from the pre-commit map, locked funds from the vesting table, and the power actor's pledge total must equal the sum over miners of pledge + vesting funds and be non-negative (modulo known finding KF-1: the creation deposit is never reported).",
         "SMALL policy; known finding KF-1 adjusts the network-total formula by the constant creation deposits; pre-commit deposits are only exercised by the thorough alphabet.",
         "DESIGN.md §3 C03, §2.8"),
 "C04": ("model_checking",
         "explicit-state BFS (deviation-bounded) over the real miner actor with every partition/deadline summary recomputed from the individual sectors",
         "Same walk as C02; after every message and tick, for every partition and deadline of every miner: set nesting/exclusion of live/faulty/recovering/unproven/terminated, the four power memos, every expiration-queue entry (each live sector exactly once, on-time at its quantised expiration, early only if faulty and strictly earlier, per-entry active/faulty power, pledge, fee deduction), deadline counts, powers, daily fee, early-termination and expiration indexes are recomputed from the SectorOnChainInfos; every on-chain sector is in exactly one partition of one deadline; a sector number is never committed twice.",
         "SMALL policy; at most 4-5 sectors; the component-level exhaustive layer over arbitrary inputs is not part of this claim yet.",
         "DESIGN.md §3 C04"),
 "C05": ("model_checking",
         "explicit-state BFS (deviation-bounded) with trace observers on every real cron tick",
         "Same walk as C02; every sub-invocation of every end-of-epoch cron tick must succeed, nothing may panic, no call may report the balance-invariants-broken code, no miner may lose its claim; after every step each miner with funds at stake has exactly one pending proving-deadline callback at the last epoch of the deadline that contains the next epoch and its recorded deadline is that one (modulo known finding KF-2 for never-committed miners); expirations are required by the first deadline end after the sector's expiration.",
         "SMALL policy; two miners; fault injection inside the tick and same-epoch deal scheduling are not part of this claim yet.",
         "DESIGN.md §3 C05, §2.8"),
 "C06": ("model_checking",
         "explicit-state BFS over the real market actor with a reference escrow ledger in lock-step",
         "Every history up to the depth bound of deposits, withdrawals (5 amounts x 4 callers x client/provider), publications of batches with valid/duplicate/foreign/badly-signed deals, activations through both entry points, settlements, terminations and time steps over deal boundaries is executed on the real market (real miner actors as providers); after every step each party's escrow and locked balance, the market-wide totals, the burnt amount and every withdrawal's amount and recipient must equal a reference ledger in which locked = sum over unfinished deals of collateral + unpaid fee.",
         "mcvm stands in for the FVM; miner-side calls impersonated; sparse ticking over long spans; amounts from a small alphabet; <=3 publications per history.",
         "DESIGN.md §3 C06"),
 "C07": ("model_checking",
         "explicit-state BFS over settlement/cron/termination schedules of the real market actor against a closed-form payment model",
         "For activated (and one unactivated) deals every schedule up to the depth bound of settlement calls, termination and time steps over the timeline {start-1,start,start+1, first cron epoch.., mid, end-1,end,end+1, late} is executed; each settlement must pay exactly price x newly elapsed epochs in [start, min(end, termination)), cron may only time out unactivated proposals after start or pay up to its own epoch, and when the deal is gone provider/client/burnt totals must equal the closed form - so all schedules reaching the same end are compared through the same ledger (path independence).",
         "mcvm stands in for the FVM; sparse ticking (real cron at scheduled epochs and at targets); two deal shapes; minimum duration only.",
         "DESIGN.md §3 C07"),
 "C08": ("model_checking",
         "explicit-state BFS over publish/activate histories of the real market actor against a lifecycle model",
         "Every history up to the depth bound of publish batches (duplicates within and across messages, same proposal with client named by ID or key address, stranger-signed and tampered signatures, foreign provider, unaffordable fee, non-controlling callers) and activation attempts (both entry points, wrong provider, expiring sector, wrong piece, repeated ids in and across sectors, unknown id, after start) with time steps is executed; returned ids must be fresh and sequential, exactly the model's entries accepted, activation accepted exactly when provider = caller, epoch <= start, sector outlives deal and not yet activated, and un-activated proposals past start are removed with the provider collateral burnt.",
         "mcvm stands in for the FVM; fake signatures bound to signer; the 'still pending after activation' corner is adopted from the implementation.",
         "DESIGN.md §3 C08"),
 "C09": ("model_checking",
         "explicit-state BFS over the real verifreg/datacap/market/multisig/miner actors with a token-ledger + allocation-table model in lock-step",
         "From six base states (genesis, granted, two verifiers, allocated, published verified deal, claimed) every history up to the depth bound of verifier/client grants through the root multisig, direct DataCap transfers with allocation and extension requests (valid and malformed), market-mediated allocations, claim batches (repeated, foreign, mismatched, expired, all-or-nothing), expirations and removals, claim term extensions, datacap removal with two verifier signatures, third-party transfers/burns and time steps around expirations is executed; after every step all holder balances, supply = minted - burnt, verifier allowances, registry balance = sum of open allocations, the allocation and claim tables and TotalSupply/Balance probes must equal the ledger model, every allocation ends in exactly one of claimed/refunded.",
         "mcvm stands in for the FVM; miner-side calls impersonated; claim-term rules and allocation policy limits are adopted from the implementation; far time jumps use one real tick then an epoch jump.",
         "DESIGN.md §3 C09"),
 "C12": ("model_checking",
         "explicit-state BFS over the real multisig actor with a quorum reference model in lock-step",
         "Every interleaving up to the depth bound of propose/approve/cancel by three signers and an outsider (with no/right/wrong proposal hash), direct admin calls, self-administration transactions (add/remove/swap signer by ID and by key address, threshold, lock), re-entrant self Approve/Propose and time steps over the vesting lock is executed on the real actor from five base wallets; after every step accept/reject, the ordered list of sends leaving the wallet, signers, threshold, pending approvals, lock and balance must equal an independent quorum model that executes a transaction only with >= threshold distinct current signers, once, within the lock.",
         "mcvm stands in for the FVM; transactions come from a fixed menu; amounts from {15, 50, -1}; at most 3-4 proposals per history.",
         "DESIGN.md §3 C12"),
 "C13": ("model_checking",
         "explicit-state BFS over the real miner actor with a protocol model of the three hand-shakes in lock-step",
         "Every interleaving up to the depth bound of ChangeOwnerAddress, ChangeWorkerAddress, ConfirmChangeWorkerAddress, ChangeBeneficiary (several term shapes) and WithdrawBalance issued by each of seven parties (owner, nominee owner, worker, new worker, control, beneficiary nominee, stranger) with epoch advances (real cron every epoch, which may apply a pending worker key) is executed; accept/reject of every call, owner/pending owner, worker/pending key and its effective epoch, control addresses, beneficiary, term and pending approvals must equal the protocol model after every step, withdrawals must pay exactly the allowed amount to the beneficiary, and after every step a control-level method is probed from all seven parties and must be accepted from exactly the model's controlling set.",
         "SMALL policy (worker-key delay 3 epochs); mcvm stands in for the FVM; a miner with one sector; beneficiary terms from a 2x2 alphabet.",
         "DESIGN.md §3 C13"),
 "C14": ("model_checking",
         "explicit-state BFS: (1) over the real vesting-table code of the miner State against a schedule model, (2) over reward/withdraw/beneficiary/penalty/time histories of a real miner",
         "Layer 1 executes every sequence up to the depth bound of add-locked-funds (5 amounts), unlock-vested, penalty draws (5 targets) and time steps (1 epoch .. 181 days) at four proving-period offsets on the real State vesting methods; the table must equal a BTreeMap model of 'linear over 180 days in daily steps quantised to 12 h', exactly the vested amount unlocks, penalty draws take vested first then soonest-unvested up to the target, locked_funds = sum of table. Layer 2 executes histories of block rewards, withdrawals (4 callers x 4 amounts), beneficiary terms (small quota / early expiry), consensus-fault penalties and jumps to vesting boundaries (-1, exact, +1) on a real miner: amount withdrawn = min(requested, balance - vesting - deposits - pledge - debt, quota left), paid only to the beneficiary, only at the request of owner or beneficiary, no fee debt left, and unvested entries never change except by a penalty (soonest first) or a new 75% lock following the schedule.",
         "mcvm stands in for the FVM; MAINNET policy with sparse ticking; amounts from small alphabets; only the first vesting days are walked at actor level.",
         "DESIGN.md §3 C14"),
 "C15": ("model_checking",
         "explicit-state BFS (deviation-bounded, with injected failure of the reporter transfer) over the real miner with a recomputed penalty ledger",
         "The miner-life walk (C02) for a rich miner and for a miner owning only its vesting creation deposit, extended with consensus-fault reports, disputes of bad proofs, debt repayment, withdrawals and block rewards carrying penalties; for every message and every cron tick the charged amount is recomputed (continued-fault fee for power already faulty, capped daily fee, FIP-0098 termination fee per early-terminated sector within [2% of pledge, cap], invalid-PoSt and consensus-fault penalties) and must equal burnt + paid to the reporter + change of fee debt; nothing may leave the burnt-funds account; withdrawals, recovery declarations and on-boarding must not succeed while fee debt stays unpaid.",
         "SMALL policy; fee magnitudes use the reward/power estimates the implementation passed down; fault class F1 only on the reporter transfer.",
         "DESIGN.md §3 C15"),
 "C16": ("model_checking",
         "explicit-state BFS over the real paych actor with a lane reference model in lock-step",
         "Every sequence up to the depth bound of vouchers from the declared grid (lane x nonce x amount x merges, plus one-field deviations: signer, submitter, time lock, secret, settle height, channel, signature), settle/collect by each party and time steps is executed on the real actor; after every step the decoded channel state must equal an independent lane model and collect payouts are checked from balance deltas.",
         "mcvm (fork of test_vm) stands in for the FVM; fake signatures bound to the signer; amounts/nonces/lanes from small alphabets; voucher extra-calls not covered.",
         "DESIGN.md §3 C16"),
 "C20": ("model_checking",
         "explicit-state BFS over the real init/EAM/EVM/power actors with an id-registry model in lock-step",
         "Every history within the creation/kill budgets of Init.Exec (4 callers x 8 codes), Exec4, EAM.CreateExternal (5 init codes, two senders), a hand-assembled factory contract doing CREATE / CREATE2 (same salt twice, kill-then-redeploy, re-entrant and reverting constructors), self-destructs and plain sends that auto-create accounts, placeholders or hit reserved addresses is executed; after every step the full actor table, the Init address map, next_id, contract nonces and returned ids/addresses (checked against independently computed RLP/keccak CREATE and CREATE2 formulas) must equal the id-registry model: fresh ids only, mappings never change, only permitted creator/code pairs, failed constructors leave nothing.",
         "mcvm mirrors ref-fvm's actor-creation rules; impersonated callers keep a fixed nonce; behaviour the property leaves open (resurrection details, EIP-3541) is adopted.",
         "DESIGN.md §3 C20"),
}
NOT_YET = "check not built yet in this round (planned, see DESIGN.md §3); not claimed"

checks, na = [], []
for i in ids:
    if i in CHECKS:
        cat, tech, text, note, ref = CHECKS[i]
        checks.append({
            "property_id": i,
            "quick_cmd": f"./run.sh {i} quick",
            "thorough_cmd": f"./run.sh {i} thorough",
            "evidence_file": f"/verif/evidence/{i}.json",
            "replay_cmd_template": "./run.sh replay {path}",
            "engine": "mcx",
            "level_claimed": {"category": cat, "text": text, "design_ref": ref},
            "level_note": note,
            "technique": tech,
        })
    else:
        na.append({"property_id": i, "reason": NOT_YET})

m = {
 "version": 1,
 "setup_cmd": "./run.sh build",
 "hooks": {
   "guard": "--cfg fil_verif (rustc cfg, set only by /verif/mc/.cargo/config.toml)",
   "enable": "RUSTFLAGS='--cfg fil_verif' via /verif/mc/.cargo/config.toml [build] rustflags; target dir /verif/target",
   "baseline_off_cmd": "cd /repo && cargo nextest run --workspace --no-fail-fast --test-threads 8 --offline || cargo test --workspace --no-fail-fast --offline",
   "source_commits": [],
   "add_only": True,
 },
 "engines": [
   {"name": "mcx", "path": "/verif/mc", "serves_properties": sorted(CHECKS),
    "kind_free_text": "level-synchronous parallel explicit-state BFS whose transitions execute the real actor code on mcvm (native VM forked from /repo/test_vm); reference models in lock-step; fault plans on nested sends"},
 ],
 "checks": checks,
 "not_applicable": na,
 "notes": "One binary (/verif/target/release/mc) serves all checks; run.sh rebuilds it from /repo's working tree (path dependencies) before every check. Exit 0 = held (KNOWN-FINDING lines allowed), 1 = VIOLATION, 2 = machinery/build failure.",
}
json.dump(m, open(os.path.join(V, "MANIFEST.json"), "w"), indent=1)
print("checks:", [c["property_id"] for c in checks], "not_applicable:", len(na))
