#!/bin/bash
if ! git -C /repo diff --quiet; then echo 'refusing: /repo has uncommitted changes (they would be wiped)'; exit 2; fi
# Apply a seeded change to /repo, run one check, undo. Usage: try_seed.sh <seed> <Cxx> [tier]
S=$1; C=$2; T=${3:-quick}
cd /repo && git apply /verif/seeded/$S/patch.diff || exit 2
rm -rf /tmp/tryout && mkdir -p /tmp/tryout && cp /verif/known_findings.json /tmp/tryout/ && cd /verif && VERIF_DIR=/tmp/tryout timeout 3000 ./run.sh $C $T > /tmp/try_$S.out 2>&1; rc=$?
git -C /repo checkout -- .
(cd /verif && ./run.sh build >/dev/null 2>&1)  # never leave a binary built from the changed tree behind
grep -E "^(VIOLATION|OK|KNOWN|BUILD)" /tmp/try_$S.out | head -5
grep -E "^violation" /tmp/try_$S.out | head -2 | cut -c1-600
echo "seed=$S check=$C tier=$T exit=$rc"
