#!/bin/bash
# Independently confirm a seeded change: demo passes without it, fails with it, and the
# repository's whole suite still passes with it. Usage: verify_seed.sh <seed-id> [demo test cmd]
set -u
S=$1
D=/verif/seeded/$S
WT=/tmp/wt-verify
export CARGO_NET_OFFLINE=true CARGO_TARGET_DIR=/tmp/wt-verify-target
[ -d $WT ] || git -C /repo worktree add --detach $WT HEAD >/dev/null 2>&1
cd $WT || exit 2
git checkout -q -- . ; git clean -fdq
out=$D/verify.log; : > $out
demo_file=$(grep -m1 '^+++ b/' $D/demo_patch.diff | sed 's/^+++ b\///')
crate_dir=$(echo $demo_file | sed -E 's#/(tests|src)/.*##')
pkg=$(grep -m1 '^name' $crate_dir/Cargo.toml | sed -E 's/name *= *"(.*)"/\1/')
tname=$(basename $demo_file .rs)
echo "demo_file=$demo_file pkg=$pkg test=$tname" | tee -a $out
git apply $D/demo_patch.diff || { echo "DEMO PATCH DOES NOT APPLY" | tee -a $out; exit 1; }
if echo $demo_file | grep -q '/tests/'; then DCMD="cargo test --offline -p $pkg --test $tname"; else DCMD="cargo test --offline -p $pkg $tname"; fi
[ $# -ge 2 ] && DCMD="$2"
echo "== demo without change: $DCMD" | tee -a $out
$DCMD >> $out 2>&1; r1=$?
git apply $D/patch.diff || { echo "PATCH DOES NOT APPLY" | tee -a $out; exit 1; }
echo "== demo with change" | tee -a $out
$DCMD >> $out 2>&1; r2=$?
# remove the demo, keep the change, run the whole suite
git apply -R $D/demo_patch.diff
echo "== full suite with change" | tee -a $out
cargo nextest run --workspace --no-fail-fast --test-threads 8 --offline > $D/suite.log 2>&1; r3=$?
tail -3 $D/suite.log | tee -a $out
git checkout -q -- . ; git clean -fdq
echo "RESULT seed=$S demo_without_change_exit=$r1 (want 0) demo_with_change_exit=$r2 (want !=0) suite_with_change_exit=$r3 (want 0)" | tee -a $out
