#!/bin/bash
if ! git -C /repo diff --quiet; then echo 'refusing: /repo has uncommitted changes (they would be wiped)'; exit 2; fi
# try_mutant.sh <file-in-repo> <sed-expression> <Cxx> [tier]  — apply a one-line mutant, run, revert
F=$1; E=$2; C=$3; T=${4:-quick}
cd /repo && sed -i "$E" $F && git diff --stat | tail -1
if git diff --quiet; then echo "MUTANT DID NOT CHANGE ANYTHING"; exit 2; fi
rm -rf /tmp/tryout && mkdir -p /tmp/tryout && cp /verif/known_findings.json /tmp/tryout/ && cd /verif && VERIF_DIR=/tmp/tryout timeout 3000 ./run.sh $C $T > /tmp/try_mut.out 2>&1; rc=$?
git -C /repo checkout -- .
(cd /verif && ./run.sh build >/dev/null 2>&1)  # never leave a binary built from the changed tree behind
grep -E "^(VIOLATION|OK|KNOWN|BUILD)" /tmp/try_mut.out | head -4
grep -E "^violation" /tmp/try_mut.out | head -1 | cut -c1-500
echo "mutant on $F check=$C exit=$rc"
