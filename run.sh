#!/bin/bash
# ./run.sh <Cxx> quick|thorough      run one check (rebuilds from /repo's working tree, hooks on)
# ./run.sh replay <file>             re-execute a recorded violation without the explorer
# ./run.sh build                     build only
set -u
ARG2="${2:-}"
if [ "${1:-}" = replay ] && [ -n "$ARG2" ]; then ARG2="$(readlink -f "$ARG2")"; fi
cd "$(dirname "$0")/mc" || exit 2
export CARGO_NET_OFFLINE=true
build() {
  local log
  log=$(cargo build --release --offline -p checks 2>&1)
  if [ $? -ne 0 ]; then
    echo "$log" | tail -60 >&2
    echo "BUILD-FAILED (machinery or repository does not compile)" >&2
    exit 2
  fi
}
build
case "${1:-}" in
  build) exit 0 ;;
  replay) exec /verif/target/release/mc replay "$ARG2" ;;
  *) exec /verif/target/release/mc "$1" "${2:-${VERIF_TIER:-quick}}" ;;
esac
